#!/usr/bin/env python3
"""seedtest.py <ID> <outdir> <k> <pkgdir> [--thorough] [--no-baseline]

Confirms one seeded change (made by an independent sub-agent that saw only the property text) and runs our check
against it, all in a scratch copy of /repo:
  1. demo test passes on the clean tree, fails with the patch;
  2. the repository's own suite (verif tag off) still passes with the patch (BASELINE stable_pass list);
  3. `./check ID` (scratch mode) reports a VIOLATION.
Writes /verif/seeded/<ID>-<k>/{patch.diff, demo, meta.json}. Removes the scratch copy afterwards."""
import json, os, re, shutil, subprocess, sys, time

V = os.path.dirname(os.path.dirname(os.path.abspath(__file__)))


def sh(cmd, cwd=None, env=None, timeout=3600):
    p = subprocess.run(cmd, cwd=cwd, env=env, stdout=subprocess.PIPE, stderr=subprocess.STDOUT, text=True, errors="replace", timeout=timeout)
    return p.returncode, p.stdout


def main():
    argv = sys.argv[1:]
    as_k = None
    if "--as" in argv:  # store under /verif/seeded/<ID>-<as_k> (wave 2 deliveries are numbered 1.. in their own outdir)
        i = argv.index("--as"); as_k = argv[i + 1]; del argv[i:i + 2]
    args = [a for a in argv if not a.startswith("--")]
    pid, outdir, k, pkg = args[0], args[1], args[2], args[3]
    as_k = as_k or k
    thorough = "--thorough" in sys.argv
    no_base = "--no-baseline" in sys.argv
    S = "/tmp/seedrun/%s-%s" % (pid, as_k)
    shutil.rmtree(S, ignore_errors=True)
    os.makedirs(S)
    repo = os.path.join(S, "repo")
    sh(["rsync", "-a", "--exclude", ".git", "/repo/", repo + "/"])
    # package ui embeds the unbuilt frontend (ui/app/dist is not in git): supply a placeholder through a go overlay
    ov = os.path.join(S, "overlay.json")
    json.dump({"Replace": {os.path.join(repo, "ui/app/dist/index.html"): os.path.join(V, "lib/ui-dist-placeholder.html")}}, open(ov, "w"))
    env = dict(os.environ, GOFLAGS="-mod=mod -overlay=" + ov, GOPROXY="off")
    env.pop("GOSUMDB", None); env.pop("GOTOOLCHAIN", None)
    patch = os.path.join(outdir, "patch%s.diff" % k)
    demo = os.path.join(outdir, "demo%s_test.go" % k)
    kept = os.path.join(V, "seeded", "%s-%s" % (pid, as_k))
    if not os.path.exists(patch):  # re-test of a kept change: take it from /verif/seeded
        patch = os.path.join(kept, "patch.diff")
        demos = [f for f in os.listdir(kept) if f.endswith("_test.go")]
        demo = os.path.join(kept, demos[0])
    meta = {"property": pid, "patch": os.path.basename(patch), "demo_package": pkg, "ran": []}
    demo_dst = os.path.join(repo, pkg, "zz_seed_demo%s_test.go" % as_k)
    shutil.copyfile(demo, demo_dst)
    m = re.search(r"^func (Test\w+)", open(demo).read(), re.M)
    tests = re.findall(r"^func (Test\w+)", open(demo).read(), re.M)
    runpat = "^(" + "|".join(tests) + ")$"
    cmd = ["go", "test", "-vet=off", "-count=1", "-run", runpat, "./" + pkg + "/"]
    rc_clean, out_clean = sh(cmd, cwd=repo, env=env)
    meta["ran"].append({"cmd": " ".join(cmd) + "  (clean tree)", "exit": rc_clean, "tail": out_clean[-400:]})
    rc_p, out_p = sh(["patch", "-p1", "-i", patch], cwd=repo)
    meta["ran"].append({"cmd": "patch -p1 -i " + os.path.basename(patch), "exit": rc_p, "tail": out_p[-300:]})
    rc_mut, out_mut = sh(cmd, cwd=repo, env=env)
    meta["ran"].append({"cmd": " ".join(cmd) + "  (with the change)", "exit": rc_mut, "tail": out_mut[-600:]})
    meta["demo_passes_clean"] = rc_clean == 0
    meta["demo_fails_with_change"] = rc_mut != 0 and rc_p == 0
    os.remove(demo_dst)
    rcb, outb = sh(["go", "build", "./..."], cwd=repo, env=env)
    # ui needs a built frontend; ignore that package
    meta["builds"] = rcb == 0 or "ui/web.go" in outb
    if not no_base:
        rc_b, out_b = sh(["python3", os.path.join(V, "lib/baseline_check.py"), repo], timeout=3000)
        if rc_b != 0:
            # timing-sensitive tests of the suite can fail when several suites run at once: once more, alone
            first = out_b[-300:]
            rc_b, out_b = sh(["python3", os.path.join(V, "lib/baseline_check.py"), repo], timeout=3000)
            out_b = "first run: " + first + "\nsecond run: " + out_b
        meta["existing_suite_passes"] = rc_b == 0
        meta["ran"].append({"cmd": "lib/baseline_check.py <scratch repo>  (go test ./... with the verif tag off vs BASELINE stable_pass)", "exit": rc_b, "tail": out_b[-300:]})
    e2 = dict(os.environ, VERIF_REPO=repo, VERIF_SCRATCH=os.path.join(S, "s"))
    t0 = time.time()
    rc_c, out_c = sh([os.path.join(V, "check"), pid, "--tier", "quick"], cwd=V, env=e2, timeout=3000)
    lines = [l for l in out_c.split("\n") if l.startswith("VIOLATION") or l.startswith("KNOWN-FINDING") or " quick:" in l]
    meta["check_quick"] = {"exit": rc_c, "lines": [l[:300] for l in lines], "wall_s": round(time.time() - t0, 1)}
    meta["detected_quick"] = rc_c == 1 and any(l.startswith("VIOLATION") for l in lines)
    if thorough or (not meta["detected_quick"] and "--no-thorough" not in sys.argv):
        t0 = time.time()
        e3 = dict(e2, VERIF_NO_COQCHK="1")
        rc_t, out_t = sh([os.path.join(V, "check"), pid, "--tier", "thorough"], cwd=V, env=e3, timeout=6000)
        lines = [l for l in out_t.split("\n") if l.startswith("VIOLATION") or " thorough:" in l]
        meta["check_thorough"] = {"exit": rc_t, "lines": [l[:300] for l in lines], "wall_s": round(time.time() - t0, 1)}
        meta["detected_thorough"] = rc_t == 1 and any(l.startswith("VIOLATION") for l in lines)
    # keep replay of the detection for the record
    rdir = os.path.join(S, "s", "replays")
    dst = kept
    os.makedirs(dst, exist_ok=True)
    if os.path.abspath(patch) != os.path.abspath(os.path.join(dst, "patch.diff")):
        shutil.copyfile(patch, os.path.join(dst, "patch.diff"))
        shutil.copyfile(demo, os.path.join(dst, os.path.basename(demo)))
    for extra in ("notes%s.md" % k, "demo%s.md" % k):
        if os.path.exists(os.path.join(outdir, extra)):
            shutil.copyfile(os.path.join(outdir, extra), os.path.join(dst, extra))
    if os.path.isdir(rdir):
        names = sorted(os.listdir(rdir))[:2]
        meta["replays_kept"] = names
        for n in names:
            try:
                r = json.load(open(os.path.join(rdir, n)))
                r.pop("case", None); r.pop("first_mismatching_case", None)
                if isinstance(r.get("model_output"), str):
                    r["model_output"] = r["model_output"][-800:]
                json.dump(r, open(os.path.join(dst, "detected-" + n), "w"), indent=1)
            except Exception:
                pass
    mp = os.path.join(dst, "meta.json")
    if os.path.exists(mp):
        try:
            oldm = json.load(open(mp))
            for kk in ("needs", "breaks_property", "history", "existing_suite_passes"):
                if kk in oldm and kk not in meta:
                    meta[kk] = oldm[kk]
            # remember earlier outcomes (a check may have been strengthened since)
            hist = meta.setdefault("history", [])
            hist.append({"detected_quick": oldm.get("detected_quick"), "detected_thorough": oldm.get("detected_thorough")})
        except Exception:
            pass
    json.dump(meta, open(mp, "w"), indent=1)
    shutil.rmtree(S, ignore_errors=True)
    k = as_k
    print("%s-%s demo_clean=%s demo_mut_fails=%s suite=%s detected_quick=%s %s" % (
        pid, k, meta["demo_passes_clean"], meta["demo_fails_with_change"], meta.get("existing_suite_passes"),
        meta["detected_quick"], ("detected_thorough=%s" % meta.get("detected_thorough")) if "detected_thorough" in meta else ""))
    for l in meta["check_quick"]["lines"][:4]:
        print("   ", l[:200])


if __name__ == "__main__":
    main()
