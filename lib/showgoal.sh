#!/bin/bash
# usage: lib/showgoal.sh <file.v relative to /verif/coq> LINE [maxlines]
# compiles a temp copy with "Show." inserted at the start of LINE (after bullets) and prints the goal there.
f=$1; n=$2
tmp=/tmp/sg_$$_$RANDOM.v
python3 - "$f" "$n" "$tmp" <<'PY'
import sys, re
f, n, tmp = sys.argv[1], int(sys.argv[2]), sys.argv[3]
L = open('/verif/coq/' + f if not f.startswith('/') else f).read().split('\n')
m = re.match(r'^(\s*(?:[-+*]+\s*)*)(.*)$', L[n-1])
L[n-1] = m.group(1) + "Show. " + m.group(2)
open(tmp, 'w').write('\n'.join(L))
PY
cd /verif/coq && timeout 600 coqc -Q theories AM "$tmp" 2>&1 | head -${3:-80}
rm -f "${tmp%.v}".* "$(dirname $tmp)/.$(basename ${tmp%.v}).aux"
