#!/usr/bin/env python3
"""mutate.py <ID> <n> [--seed S] [--out FILE]

A small mutation campaign against the code a property is anchored in (properties.jsonl: anchors.files, and the
functions named in the `where` fields): single-token mutants (relational and logical operators, Before/After, negated
conditions, boolean returns, continue/break, +/-) of lines inside those functions. For each sampled mutant, in a scratch
copy of /repo:  1. the package must still build;  2. the package's own tests must still pass (a mutant the repository's
tests kill is not interesting);  3. `./check ID` (quick tier, scratch mode) is run.  One JSON line per mutant is
appended to the output file: site, operator, whether it survived the repository's tests, whether the check reported a
VIOLATION. Survivors that the check does not report need a human look (many are equivalent mutants: logging, metrics,
redundant guards). The scratch copy is removed after each mutant. Never touches /repo."""
import json, os, random, re, shutil, subprocess, sys

V = os.path.dirname(os.path.dirname(os.path.abspath(__file__)))
REPO = "/repo"

OPS = [
    ("rel<", re.compile(r"(?<=[\w\)\]]) < (?=[\w\(\-])"), " <= "),
    ("rel<=", re.compile(r" <= "), " < "),
    ("rel>", re.compile(r"(?<=[\w\)\]]) > (?=[\w\(\-])"), " >= "),
    ("rel>=", re.compile(r" >= "), " > "),
    ("rel==", re.compile(r" == "), " != "),
    ("rel!=", re.compile(r" != "), " == "),
    ("and", re.compile(r" && "), " || "),
    ("or", re.compile(r" \|\| "), " && "),
    ("before", re.compile(r"\.Before\("), ".After("),
    ("after", re.compile(r"\.After\("), ".Before("),
    ("ifnot", re.compile(r"\bif !"), "if "),
    ("rettrue", re.compile(r"\breturn true\b"), "return false"),
    ("retfalse", re.compile(r"\breturn false\b"), "return true"),
    ("continue", re.compile(r"^(\s*)continue\s*$"), r"\1break"),
    ("plus", re.compile(r"(?<=[\w\)]) \+ (?=[\w\(])"), " - "),
    ("minus", re.compile(r"(?<=[\w\)]) - (?=[\w\(])"), " + "),
]


def sh(cmd, cwd=None, env=None, timeout=1800):
    try:
        p = subprocess.run(cmd, cwd=cwd, env=env, stdout=subprocess.PIPE, stderr=subprocess.STDOUT, text=True, errors="replace", timeout=timeout)
        return p.returncode, p.stdout
    except subprocess.TimeoutExpired as e:
        return 124, (e.stdout or "") if isinstance(e.stdout, str) else "timeout"


def func_spans(src):
    """(name, first_line, last_line) of every top-level func, by brace counting from the `func` line."""
    lines = src.split("\n")
    spans = []
    i = 0
    while i < len(lines):
        m = re.match(r"^func (?:\([^)]*\) )?([A-Za-z_]\w*)", lines[i])
        if m and "{" in lines[i]:
            depth, j = 0, i
            while j < len(lines):
                depth += lines[j].count("{") - lines[j].count("}")
                if depth <= 0 and j > i or (depth == 0 and j == i and lines[j].rstrip().endswith("}")):
                    break
                j += 1
            spans.append((m.group(1), i, j))
            i = j + 1
        else:
            i += 1
    return spans


def main():
    argv = sys.argv[1:]
    pid, n = argv[0], int(argv[1])
    seed = int(argv[argv.index("--seed") + 1]) if "--seed" in argv else 1
    out = argv[argv.index("--out") + 1] if "--out" in argv else "/tmp/sp/mutants-%s.jsonl" % pid
    prop = [json.loads(l) for l in open(os.path.join(V, "properties.jsonl")) if json.loads(l)["id"] == pid][0]
    anchors = prop["anchors"]
    files = [f for f in anchors["files"] if f.endswith(".go")]
    wanted = set()
    for sect in ("state", "mechanism"):
        for e in anchors.get(sect, []):
            for tok in re.findall(r"[A-Za-z_][\w\.]*", e.get("where", "")):
                wanted.add(tok.split(".")[-1])
    sites = []
    for f in files:
        path = os.path.join(REPO, f)
        if not os.path.exists(path):
            continue
        src = open(path).read()
        lines = src.split("\n")
        spans = func_spans(src)
        named = [s for s in spans if s[0] in wanted]
        use = named if named else spans
        for (name, a, b) in use:
            for ln in range(a + 1, b):
                line = lines[ln]
                code = line.split("//")[0]
                if not code.strip() or "verifYield" in code or "level.Debug" in code or ".Debug(" in code or ".Info(" in code or ".Warn(" in code or ".Error(" in code or "span." in code or "metrics." in code:
                    continue
                for (op, rx, rep) in OPS:
                    for m in rx.finditer(code):
                        new = code[:m.start()] + rx.sub(rep, code[m.start():], count=1) + line[len(code):]
                        if new != line:
                            sites.append({"file": f, "func": name, "line": ln + 1, "op": op, "old": line.strip(), "new": new.strip(), "_new": new})
    rnd = random.Random(seed * 7919 + sum(ord(c) for c in pid))
    rnd.shuffle(sites)
    picked, seen = [], set()
    for s in sites:
        k = (s["file"], s["line"])
        if k in seen:
            continue
        seen.add(k)
        picked.append(s)
        if len(picked) >= n:
            break
    env = dict(os.environ, GOFLAGS="-mod=mod", GOPROXY="off")
    env.pop("GOSUMDB", None); env.pop("GOTOOLCHAIN", None)
    os.makedirs(os.path.dirname(out), exist_ok=True)
    for i, s in enumerate(picked):
        S = "/tmp/mutrun/%s-%d-%d" % (pid, seed, i)
        shutil.rmtree(S, ignore_errors=True)
        os.makedirs(S)
        repo = os.path.join(S, "repo")
        sh(["rsync", "-a", "--exclude", ".git", REPO + "/", repo + "/"])
        path = os.path.join(repo, s["file"])
        lines = open(path).read().split("\n")
        lines[s["line"] - 1] = s["_new"]
        open(path, "w").write("\n".join(lines))
        pkg = "./" + os.path.dirname(s["file"]) + "/"
        rec = {k: v for k, v in s.items() if not k.startswith("_")}
        rec["property"] = pid
        rc, o = sh(["go", "build", pkg], cwd=repo, env=env, timeout=600)
        rec["builds"] = rc == 0
        if rc == 0:
            rc, o = sh(["go", "test", "-vet=off", "-count=1", "-timeout", "300s", pkg], cwd=repo, env=env, timeout=400)
            rec["repo_tests_pass"] = rc == 0
            if rc == 0:
                e2 = dict(os.environ, VERIF_REPO=repo, VERIF_SCRATCH=os.path.join(S, "s"), VERIF_NO_COQCHK="1")
                rc, o = sh([os.path.join(V, "check"), pid, "--tier", "quick"], cwd=V, env=e2, timeout=2400)
                vl = [l for l in o.split("\n") if l.startswith("VIOLATION")]
                rec["detected"] = rc == 1 and bool(vl)
                rec["violations"] = [re.sub(r".*replays/", "", l)[:120] for l in vl[:4]]
                rec["summary"] = [l for l in o.split("\n") if " quick:" in l][-1:]
        with open(out, "a") as f:
            f.write(json.dumps(rec) + "\n")
        print(json.dumps({k: rec.get(k) for k in ("file", "line", "op", "builds", "repo_tests_pass", "detected")}), flush=True)
        shutil.rmtree(S, ignore_errors=True)


if __name__ == "__main__":
    main()
