#!/usr/bin/env python3
"""addfinding.py finding <Cxx> <key> "<what fails>"   |   addfinding.py fixed <Cxx> <commit> "<what failed>" """
import fcntl, os, sys
V = os.path.dirname(os.path.dirname(os.path.abspath(__file__)))
p = os.path.join(V, "known_findings.txt")
kind, pid, k, what = sys.argv[1:5]
line = ("finding: property=%s key=%s %s" % (pid, k, what)) if kind == "finding" else ("fixed: property=%s %s %s" % (pid, k, what))
with open(os.path.join(V, ".lock-edit"), "w") as lk:
    fcntl.flock(lk, fcntl.LOCK_EX)
    old = open(p).read() if os.path.exists(p) else ""
    if line not in old:
        open(p, "a").write(line + "\n")
        print("added:", line)
