#!/usr/bin/env python3
"""Runs the repository's own test suite with the verif tag OFF and compares with /root/.vp/BASELINE.json stable_pass."""
import json, os, subprocess, sys
repo = sys.argv[1] if len(sys.argv) > 1 else "/repo"
base = json.load(open("/root/.vp/BASELINE.json"))
env = dict(os.environ, GOFLAGS="-mod=mod", GOPROXY="off")
env.pop("GOSUMDB", None); env.pop("GOTOOLCHAIN", None)
p = subprocess.run(["go", "test", "-json", "-vet=off", "-count=1", "-timeout", "25m", "./..."], cwd=repo, env=env,
                   stdout=subprocess.PIPE, stderr=subprocess.STDOUT, text=True, errors="replace")
res = {}
for line in p.stdout.split("\n"):
    try:
        ev = json.loads(line)
    except Exception:
        continue
    if ev.get("Test") and ev.get("Action") in ("pass", "fail", "skip"):
        res["%s::%s" % (ev["Package"], ev["Test"])] = ev["Action"]
bad = [t for t in base["stable_pass"] if res.get(t) != "pass"]
print("stable_pass tests: %d, passing now: %d, NOT passing: %d" % (len(base["stable_pass"]), len(base["stable_pass"]) - len(bad), len(bad)))
for t in bad[:40]:
    print("  ", t, res.get(t))
sys.exit(1 if bad else 0)
