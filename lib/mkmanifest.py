#!/usr/bin/env python3
"""Builds /verif/MANIFEST.json from props/*.json (one file per claimed property) + props/_not_applicable.json."""
import glob, json, os
V = os.path.dirname(os.path.dirname(os.path.abspath(__file__)))
ALL = ["C%02d" % i for i in range(1, 21)]
checks, engines = [], {}
claimed = []
for p in sorted(glob.glob(os.path.join(V, "props", "C*.json"))):
    c = json.load(open(p))
    pid = c["property_id"]
    if not os.path.exists(os.path.join(V, "coq/theories/Properties/%s.v" % pid)):
        continue
    claimed.append(pid)
    checks.append({
        "property_id": pid,
        "quick_cmd": "./check %s --tier quick" % pid,
        "thorough_cmd": "./check %s --tier thorough" % pid,
        "evidence_file": "evidence/%s.json" % pid,
        "replay_cmd_template": "./check %s --replay {path}" % pid,
        "engine": c.get("engine", ""),
        "level_claimed": {"category": "proof", "text": c["level_text"], "design_ref": c.get("design_ref", "DESIGN.md section 6")},
        "level_note": c["level_note"],
        "technique": c.get("technique", "Coq theorem on a hand-written executable model + differential correspondence check"),
    })
    engines.setdefault(c.get("engine", "E"), []).append(pid)
na_path = os.path.join(V, "props", "_not_applicable.json")
na_reasons = json.load(open(na_path)) if os.path.exists(na_path) else {}
na = [{"property_id": p, "reason": na_reasons.get(p, "check not built yet (work in progress; see DESIGN.md section 12)")}
      for p in ALL if p not in claimed]
hooks_path = os.path.join(V, "props", "_hooks.json")
hooks = json.load(open(hooks_path)) if os.path.exists(hooks_path) else {}
m = {
    "version": 1,
    "setup_cmd": "./check --setup",
    "hooks": {
        "guard": "verif",
        "enable": "go test -tags verif,verif_cXX (harness module /verif/harness with replace => /repo; the yield hooks and the nflog query-key export need only `verif`, every other white-box export file is additionally guarded by the tag of the checks that use it)",
        "baseline_off_cmd": "cd /repo && go test -mod=mod -json -vet=off -count=1 -timeout 25m ./...",
        "source_commits": hooks.get("source_commits", []),
        "add_only": True,
    },
    "engines": [{"name": k, "path": "harness/", "serves_properties": v,
                 "kind_free_text": "Go differential harness (real code vs Coq model via generated cases.v, vm_compute) + direct oracle"}
                for k, v in sorted(engines.items())],
    "checks": checks,
    "notes": "Every check: regenerate Gen/Consts.v from /repo, build the Coq closure of Properties/<ID>.v (full .vo), Print Assumptions, "
             "run the Go harness against /repo's working tree with -tags verif, evaluate the model on the recorded cases in Coq, "
             "verdict + evidence. See DESIGN.md.",
    "not_applicable": na,
}
json.dump(m, open(os.path.join(V, "MANIFEST.json"), "w"), indent=1)
print("claimed:", claimed)
