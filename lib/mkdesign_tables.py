#!/usr/bin/env python3
"""Regenerates the generated sections of DESIGN.md (between <!-- GEN:name --> and <!-- /GEN:name --> markers):
per-property theorem lists, /repo commits, seeded-change table."""
import glob, json, os, re, subprocess
V = os.path.dirname(os.path.dirname(os.path.abspath(__file__)))
STMT = re.compile(r"^\s*(Theorem|Corollary)\s+([A-Za-z_][A-Za-z0-9_']*)", re.M)

def strip_comments(src):
    out, depth, i = [], 0, 0
    while i < len(src):
        if src.startswith("(*", i): depth += 1; i += 2
        elif src.startswith("*)", i) and depth > 0: depth -= 1; i += 2
        else:
            if depth == 0: out.append(src[i])
            i += 1
    return "".join(out)

def theorems():
    lines = []
    for p in sorted(glob.glob(os.path.join(V, "coq/theories/Properties/C*.v"))):
        pid = os.path.basename(p)[:-2]
        names = [m.group(2) for m in STMT.finditer(strip_comments(open(p).read()))]
        cfg = {}
        cp = os.path.join(V, "props", pid + ".json")
        if os.path.exists(cp): cfg = json.load(open(cp))
        lines.append("**%s** (%d theorems; engine %s): %s" % (pid, len(names), cfg.get("engine", "?"), ", ".join("`%s`" % n for n in names)))
        lines.append("")
    return "\n".join(lines)

def commits():
    out = subprocess.run(["git", "-C", "/repo", "log", "--reverse", "--format=%h %s", "9aad917..HEAD"], stdout=subprocess.PIPE, text=True).stdout
    rows = ["| commit | kind | subject |", "|---|---|---|"]
    for l in out.strip().split("\n"):
        if not l: continue
        h, s = l.split(" ", 1)
        kind = "fix" if s.startswith("fix:") else ("hook/export (tag verif)" if s.startswith("verif:") else "other")
        rows.append("| %s | %s | %s |" % (h, kind, s.replace("|", "/")))
    return "\n".join(rows)

def seeded():
    rows = ["| seeded change | property | what it needs to manifest (from the seeder's notes) | demo fails with / passes without | repo suite passes | quick | thorough | how it was reported |", "|---|---|---|---|---|---|---|---|"]
    for d in sorted(glob.glob(os.path.join(V, "seeded/*/meta.json"))):
        m = json.load(open(d))
        name = os.path.basename(os.path.dirname(d))
        needs = m.get("needs", "")
        keys = []
        for l in m.get("check_quick", {}).get("lines", []) + m.get("check_thorough", {}).get("lines", []):
            mm = re.search(r"replay=\S*?-(?:quick|thorough)-\d+-([\w.:-]+)\.json", l)
            if mm and mm.group(1) not in keys: keys.append(mm.group(1))
        rows.append("| %s | %s | %s | %s / %s | %s | %s | %s | %s |" % (
            name, m["property"], needs.replace("|", "/")[:220], m.get("demo_fails_with_change"), m.get("demo_passes_clean"),
            m.get("existing_suite_passes", "n/a"), "DETECTED" if m.get("detected_quick") else "missed",
            ("DETECTED" if m.get("detected_thorough") else "missed") if "detected_thorough" in m else "-",
            ", ".join(keys[:4]) or "-"))
    return "\n".join(rows)

def main():
    p = os.path.join(V, "DESIGN.md")
    s = open(p).read()
    for name, fn in (("theorems", theorems), ("commits", commits), ("seeded", seeded)):
        a, b = "<!-- GEN:%s -->" % name, "<!-- /GEN:%s -->" % name
        if a in s and b in s:
            s = s[:s.index(a) + len(a)] + "\n" + fn() + "\n" + s[s.index(b):]
    open(p, "w").write(s)

if __name__ == "__main__":
    main()
