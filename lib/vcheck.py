#!/usr/bin/env python3
"""Driver for the alertmanager Coq verification checks.

  ./check <ID> [--tier quick|thorough] [--replay FILE]
  ./check --setup
  ./check --all [--tier ...]

One run = (1) regenerate Gen/Consts.v from /repo, (2) build the Coq closure of Properties/<ID>.v and collect
Print Assumptions, (3) build+run the Go harness package against /repo's working tree with -tags verif,
(4) evaluate the model on the recorded cases inside Coq (vm_compute), (5) verdict + evidence.
"""
import concurrent.futures
import fcntl
import glob
import hashlib
import json
import os
import re
import shutil
import subprocess
import sys
import time

VERIF = os.path.dirname(os.path.dirname(os.path.abspath(__file__)))
REPO = os.environ.get("VERIF_REPO", "/repo")
COQ = os.path.join(VERIF, "coq")
HARNESS = os.path.join(VERIF, "harness")
RUNROOT = os.path.join(COQ, "run")
# Development aid (never used by the registered commands): VERIF_SCRATCH=<dir> together with VERIF_REPO=<copy of
# the repo> runs a check against a scratch copy of the repository without touching /verif's harness module,
# run directory, evidence or replays (so that several people can work in /verif at once).
SCRATCH = os.environ.get("VERIF_SCRATCH")
EVIDENCE_DIR = os.path.join(VERIF, "evidence")
REPLAY_DIR = os.path.join(VERIF, "replays")
if SCRATCH:
    os.makedirs(SCRATCH, exist_ok=True)
    subprocess.run(["rsync", "-a", "--delete", "--exclude", "go.mod", "--exclude", "go.sum", HARNESS + "/", os.path.join(SCRATCH, "harness") + "/"], check=True)
    HARNESS = os.path.join(SCRATCH, "harness")
    RUNROOT = os.path.join(SCRATCH, "run")
    EVIDENCE_DIR = os.path.join(SCRATCH, "evidence")
    REPLAY_DIR = os.path.join(SCRATCH, "replays")
TAG = "verif"
# The white-box export files in /repo (verif_export*.go) are guarded by `verif && verif_cXX`: each is compiled only for
# the checks that use it, so that a refactor of unexported names behind one export breaks the tie of those checks only
# (the yield hooks and the nflog query-key export stay under plain `verif`).
ALL_TAGS = ",".join([TAG] + ["verif_c%02d" % i for i in range(1, 21)])


def tags_for(pid):
    return "%s,verif_%s" % (TAG, pid.lower())


ALLOWED_AXIOMS = {
    # standard-library axioms that may appear (named in DESIGN.md section 7); none is expected.
    "functional_extensionality_dep", "FunctionalExtensionality.functional_extensionality_dep",
    "Eqdep.Eq_rect_eq.eq_rect_eq", "ProofIrrelevance.proof_irrelevance", "JMeq.JMeq_eq",
    "Classical_Prop.classic", "PropExtensionality.propositional_extensionality",
}

FORBIDDEN = re.compile(
    r"\b(Admitted|admit|Axiom|Axioms|Parameter|Parameters|Conjecture|Conjectures|Admit\s+Obligations|"
    r"Unset\s+Guard\s+Checking|Unset\s+Positivity\s+Checking|Unset\s+Universe\s+Checking|bypass_check|"
    r"type-in-type|impredicative-set|native_compute)\b")


def goenv():
    env = dict(os.environ)
    env["GOFLAGS"] = "-mod=mod"
    env["GOPROXY"] = "off"
    # these two break the cached go1.25 toolchain switch for /repo (see DESIGN.md)
    env.pop("GOSUMDB", None)
    env.pop("GOTOOLCHAIN", None)
    env["VERIF_REPO"] = REPO
    ov = overlay_file()
    if ov:
        env["GOFLAGS"] += " -overlay=" + ov
        env["VERIF_OVERLAY"] = ov
    return env


def overlay_file():
    """Package ui embeds ui/app/dist (the built web frontend, not in git), so packages importing it (app) do not
    compile on a plain checkout. A go build overlay supplies a one-file placeholder WITHOUT touching /repo."""
    if os.path.isdir(os.path.join(REPO, "ui/app/dist")):
        return None
    path = os.path.join(HARNESS, ".overlay.json")
    want = json.dumps({"Replace": {os.path.join(REPO, "ui/app/dist/index.html"): os.path.join(VERIF, "lib/ui-dist-placeholder.html")}})
    try:
        if open(path).read() == want:
            return path
    except Exception:
        pass
    try:
        open(path, "w").write(want)
    except Exception:
        return None
    return path


def sh(cmd, cwd=None, env=None, timeout=None, check=False):
    p = subprocess.run(cmd, cwd=cwd, env=env, timeout=timeout, stdout=subprocess.PIPE, stderr=subprocess.STDOUT,
                       text=True, errors="replace")
    if check and p.returncode != 0:
        raise RuntimeError("command failed: %s\n%s" % (cmd, p.stdout[-4000:]))
    return p.returncode, p.stdout


class Lock:
    def __init__(self, name):
        self.path = os.path.join(VERIF, ".lock-" + name)

    def __enter__(self):
        self.f = open(self.path, "w")
        fcntl.flock(self.f, fcntl.LOCK_EX)

    def __exit__(self, *a):
        fcntl.flock(self.f, fcntl.LOCK_UN)
        self.f.close()


def strip_comments(src):
    out, depth, i = [], 0, 0
    while i < len(src):
        if src.startswith("(*", i):
            depth += 1
            i += 2
        elif src.startswith("*)", i) and depth > 0:
            depth -= 1
            i += 2
        else:
            if depth == 0:
                out.append(src[i])
            elif src[i] == "\n":
                out.append("\n")
            i += 1
    return "".join(out)


def strip_strings(src):
    return re.sub(r'"(?:[^"]|"")*"', '""', src)


def vfiles():
    fs = []
    for root, _, files in os.walk(os.path.join(COQ, "theories")):
        for f in files:
            if f.endswith(".v"):
                fs.append(os.path.relpath(os.path.join(root, f), COQ))
    return sorted(fs)


def forbidden_scan(files=None):
    hits = []
    for rel in (files or vfiles()):
        src = strip_strings(strip_comments(open(os.path.join(COQ, rel)).read()))
        for n, line in enumerate(src.split("\n"), 1):
            m = FORBIDDEN.search(line)
            if m:
                hits.append("%s:%d: %s" % (rel, n, m.group(0)))
            if re.match(r"\s*(Variable|Variables|Hypothesis|Hypotheses|Context)\b", line):
                # only allowed inside a Section: checked by a running section depth
                pass
        # Variable/Hypothesis outside a section
        depth = 0
        for n, line in enumerate(src.split("\n"), 1):
            if re.match(r"\s*Section\b", line):
                depth += 1
            elif re.match(r"\s*End\b", line) and depth > 0:
                depth -= 1
            elif depth == 0 and re.match(r"\s*(Variable|Variables|Hypothesis|Hypotheses)\b", line):
                hits.append("%s:%d: Variable/Hypothesis outside a Section" % (rel, n))
    return hits


def gen_gomod():
    """harness/go.mod = /repo/go.mod's requirements + replace => /repo ; go.sum copied."""
    src = open(os.path.join(REPO, "go.mod")).read()
    src = re.sub(r"^module\s+\S+", "module verifharness", src, count=1, flags=re.M)
    src += "\nrequire github.com/prometheus/alertmanager v0.0.0\n\nreplace github.com/prometheus/alertmanager => %s\n" % REPO
    extra = os.path.join(HARNESS, "go.mod.extra")
    if os.path.exists(extra):
        src += open(extra).read()
    path = os.path.join(HARNESS, "go.mod")
    old = open(path).read() if os.path.exists(path) else ""
    if old != src:
        open(path, "w").write(src)
    shutil.copyfile(os.path.join(REPO, "go.sum"), os.path.join(HARNESS, "go.sum"))


def genconsts():
    target = os.path.join(COQ, "theories/Gen/Consts.v")
    if SCRATCH:
        # scratch runs must not rewrite the shared Consts.v: generate aside and report a difference as a broken obligation
        aside = os.path.join(SCRATCH, "Consts.v")
        rc, out = sh(["go", "run", "./cmd/genconsts", REPO, "cmd/genconsts/consts.json", aside], cwd=HARNESS, env=goenv(), timeout=600)
        if rc == 0 and open(aside).read() != open(target).read():
            return 3, "constants in the scratch repo differ from Gen/Consts.v (run against /repo to re-check the proofs that use them)"
        return rc, out
    rc, out = sh(["go", "run", "./cmd/genconsts", REPO, "cmd/genconsts/consts.json", target], cwd=HARNESS, env=goenv(), timeout=600)
    return rc, out


def coq_makefile():
    files = vfiles()
    proj = "-Q theories AM\n" + "\n".join(files) + "\n"
    path = os.path.join(COQ, "_CoqProject")
    old = open(path).read() if os.path.exists(path) else ""
    if old != proj or not os.path.exists(os.path.join(COQ, "Makefile")):
        open(path, "w").write(proj)
        sh(["coq_makefile", "-f", "_CoqProject", "-o", "Makefile"], cwd=COQ, check=True)


_DEPS = {}


def direct_deps(rel):
    """direct AM dependencies (as .v paths relative to coq/) of one file, via coqdep on that file alone."""
    st = os.stat(os.path.join(COQ, rel)).st_mtime
    if rel in _DEPS and _DEPS[rel][0] == st:
        return _DEPS[rel][1]
    rc, out = sh(["coqdep", "-Q", "theories", "AM", rel], cwd=COQ)
    ds = []
    for line in out.split("\n"):
        m = re.match(r"(\S+)\.vo\s.*?:\s*(.*)$", line)
        if m and m.group(1) + ".v" == rel:
            ds = [d[:-3] + ".v" for d in m.group(2).split() if d.endswith(".vo") and d.startswith("theories/")
                  and d[:-3] + ".v" != rel]
    _DEPS[rel] = (st, ds)
    return ds


def closure(target):
    """.v files (relative to coq/) in the dependency closure of target (per-file coqdep: an unrelated broken
    file elsewhere in the tree does not matter)."""
    seen, todo = set(), [target]
    while todo:
        x = todo.pop()
        if x in seen or not os.path.exists(os.path.join(COQ, x)):
            continue
        seen.add(x)
        todo.extend(direct_deps(x))
    return sorted(seen)


def _vo(rel):
    return os.path.join(COQ, rel[:-2] + ".vo")


def coq_build(targets, timeout=3000):
    """Full .vo build (coqc, no -vos) of the dependency closure of the targets. Returns (ok, log).
    Equivalent to `make <targets>.vo` of the coq_makefile project, but restricted to the closure."""
    files = set()
    for t in targets:
        if not os.path.exists(os.path.join(COQ, t)):
            return False, 'File "./%s", line 0: Error: missing file' % t
        files.update(closure(t))
    order, mark = [], {}

    def visit(f):
        if mark.get(f):
            return
        mark[f] = 1
        for d in direct_deps(f):
            if d in files:
                visit(d)
        order.append(f)
    for f in sorted(files):
        visit(f)

    def stale(f, rebuilt):
        vo = _vo(f)
        if not os.path.exists(vo):
            return True
        mt = os.path.getmtime(vo)
        if mt < os.path.getmtime(os.path.join(COQ, f)):
            return True
        for d in direct_deps(f):
            if d in rebuilt or (os.path.exists(_vo(d)) and os.path.getmtime(_vo(d)) > mt):
                return True
        return False
    log = []
    if not any(stale(f, set()) for f in order):
        return True, ""
    with Lock("coq"):
        rebuilt, failed = set(), set()
        t_end = time.time() + timeout
        for f in order:
            if any(d in failed for d in direct_deps(f)):
                failed.add(f)
                continue
            if not stale(f, rebuilt):
                continue
            left = max(10, int(t_end - time.time()))
            rc, out = sh(["timeout", str(left), "coqc", "-Q", "theories", "AM", f], cwd=COQ, timeout=left + 30)
            log.append("COQC %s\n%s" % (f, out))
            if rc != 0:
                failed.add(f)
                try:
                    os.remove(_vo(f))
                except OSError:
                    pass
                if rc == 124:
                    log.append('File "./%s", line 0: Error: coqc timed out' % f)
            else:
                rebuilt.add(f)
        return not failed, "\n".join(log)


STMT = re.compile(r"^\s*(?:Local\s+|Global\s+|#\[[^\]]*\]\s*)*(Theorem|Lemma|Corollary|Example|Fact|Remark|Proposition)\s+([A-Za-z_][A-Za-z0-9_']*)", re.M)


def count_obligations(files):
    n = 0
    names = []
    for rel in files:
        src = strip_comments(open(os.path.join(COQ, rel)).read())
        for m in STMT.finditer(src):
            n += 1
            names.append(m.group(2))
    return n, names


def property_theorems(pid):
    rel = "theories/Properties/%s.v" % pid
    src = strip_comments(open(os.path.join(COQ, rel)).read())
    return [m.group(2) for m in STMT.finditer(src) if m.group(1) in ("Theorem", "Corollary")]


def print_assumptions(pid, outdir):
    thms = property_theorems(pid)
    path = os.path.join(outdir, "assum_%s.v" % pid)
    with open(path, "w") as f:
        f.write("From AM Require Import Properties.%s.\n" % pid)
        for t in thms:
            f.write('Goal True. idtac "@@THM %s". exact I. Qed.\nPrint Assumptions %s.\n' % (t, t))
    rc, out = sh(["timeout", "600", "coqc", "-Q", os.path.join(COQ, "theories"), "AM", path], cwd=outdir)
    res = {}
    cur = None
    for line in out.split("\n"):
        m = re.match(r"@@THM (\S+)", line)
        if m:
            cur = m.group(1)
            res[cur] = []
            continue
        if cur is None:
            continue
        if "Closed under the global context" in line:
            continue
        m = re.match(r"^([A-Za-z_][\w.']*)\s*:", line)
        if m and not line.startswith("Axioms"):
            res[cur].append(m.group(1))
    bad = []
    for t, axs in res.items():
        for a in axs:
            if a not in ALLOWED_AXIOMS and a.split(".")[-1] not in {x.split(".")[-1] for x in ALLOWED_AXIOMS}:
                bad.append("%s depends on %s" % (t, a))
    if rc != 0:
        bad.append("Print Assumptions run failed: " + out[-500:])
    if set(res) != set(thms):
        bad.append("assumptions missing for some theorems")
    return res, bad


def run_harness(pid, tier, seed, outdir, replay=None, mode="check", timeout=None):
    """Runs the Go harness. A run that hits the go-test timeout is retried once: under Go 1.25's testing/synctest a
    sync.WaitGroup.Wait inside a bubble is very occasionally not registered as durably blocking, which stalls the
    bubble's virtual clock for good (observed once in ~10^5 flushes; unrelated to the code under test)."""
    if timeout is None:
        timeout = 900 if tier == "quick" else 3000
    for attempt in (1, 2):
        rc, out = _run_harness_once(pid, tier, seed, outdir, replay, mode, timeout)
        if rc != 0 and ("panic: test timed out" in out or "test timed out after" in out) and attempt == 1:
            for f in glob.glob(os.path.join(outdir, "cases_*.v")) + glob.glob(os.path.join(outdir, "impl.json")):
                os.remove(f)
            continue
        return rc, out
    return rc, out


def _run_harness_once(pid, tier, seed, outdir, replay, mode, timeout):
    env = goenv()
    env.update({"VERIF_OUT": outdir, "VERIF_SEED": str(seed), "VERIF_TIER": tier, "VERIF_MODE": mode,
                "VERIF_DIR": VERIF})
    if replay:
        env["VERIF_REPLAY"] = os.path.abspath(replay)
    pkg = "./" + pid.lower() + "/"
    cmd = ["go", "test", "-tags", tags_for(pid), "-count=1", "-timeout", "%ds" % timeout, "-run", "^TestCheck$", pkg]
    rc, out = sh(cmd, cwd=HARNESS, env=env, timeout=timeout + 120)
    return rc, out


def run_shard(path, limit=1500):
    d = os.path.dirname(path)
    rc, out = sh(["timeout", str(limit), "coqc", "-Q", os.path.join(COQ, "theories"), "AM", path], cwd=d)
    flat = re.sub(r"\s+", " ", out)
    res = {}
    for name in ("M", "V"):
        m = re.search(r"\b%s = (\[[^\]]*\])" % name, flat)
        if m:
            body = m.group(1).strip("[]").strip()
            res[name] = [int(x) for x in re.findall(r"(\d+)(?:%nat)?", body)] if body else []
        else:
            res[name] = None
    return path, rc, res, out


def debug_shard(path, ids, outdir):
    """re-evaluate the model's own output for the listed case ids of a shard (for the replay file)."""
    src = open(path).read()
    cut = src.find("(* FOOTER *)")
    if cut < 0:
        return ""
    dbg = os.path.join(outdir, "debug_" + os.path.basename(path))
    with open(dbg, "w") as f:
        f.write(src[:cut])
        f.write("Eval vm_compute in map show_case (select_ids [%s] cases).\n" % "; ".join("%d%%nat" % i for i in ids[:3]))
    rc, out = sh(["timeout", "600", "coqc", "-Q", os.path.join(COQ, "theories"), "AM", dbg], cwd=outdir)
    return out[-6000:]


def load_known():
    res = {"finding": [], "fixed": []}
    path = os.path.join(VERIF, "known_findings.txt")
    if not os.path.exists(path):
        return res
    for line in open(path):
        line = line.strip()
        m = re.match(r"finding:\s+property=(\S+)\s+key=(\S+)\s*(.*)$", line)
        if m:
            res["finding"].append((m.group(1), m.group(2), m.group(3)))
        m = re.match(r"fixed:\s+property=(\S+)\s+(\S+)\s*(.*)$", line)
        if m:
            res["fixed"].append((m.group(1), m.group(2), m.group(3)))
    return res


def write_json(path, obj):
    os.makedirs(os.path.dirname(path), exist_ok=True)
    tmp = path + ".tmp"
    with open(tmp, "w") as f:
        json.dump(obj, f, indent=1, sort_keys=False, default=str)
        f.write("\n")
    os.replace(tmp, path)


TRUSTED_BASE = [
    "Coq 8.16.1 kernel + vm_compute (no native_compute); std++ 1.8.0 and Coq stdlib as installed",
    "Axioms per theorem: see coverage.assumptions (expected: closed under the global context)",
    "translator harness/cmd/genconsts (go/ast literal copier) for Gen/Consts.v",
    "correspondence harness (Go, /verif/harness): generators, canonicalisers, Coq literal emitter; testing/synctest virtual time",
    "hand-written model tied to the code only by the correspondence run of this check; no extraction is used",
]


def check(pid, tier, replay=None):
    # two runs of the same property share its run directory and evidence file: serialise them
    lockname = ("run-" + pid) if not SCRATCH else None
    if lockname:
        with Lock(lockname):
            return _check(pid, tier, replay)
    return _check(pid, tier, replay)


def _check(pid, tier, replay=None):
    t0 = time.time()
    seed = int(os.environ.get("VERIF_SEED", "1") or "1")
    cfgpath = os.path.join(VERIF, "props", pid + ".json")
    cfg = json.load(open(cfgpath)) if os.path.exists(cfgpath) else {}
    outdir = os.path.join(RUNROOT, pid)
    shutil.rmtree(outdir, ignore_errors=True)
    os.makedirs(outdir)
    evidence_path = os.path.join(EVIDENCE_DIR, pid + ".json")
    replay_dir = REPLAY_DIR
    os.makedirs(replay_dir, exist_ok=True)
    if not replay:
        for old_rp in glob.glob(os.path.join(replay_dir, "%s-%s-%d-*.json" % (pid, tier, seed))) + glob.glob(os.path.join(replay_dir, "%s-%s-%d.json" % (pid, tier, seed))):
            os.remove(old_rp)
    broken = []       # broken proof obligations / ties (strings)
    notes = []

    # 1. translator + proofs
    with Lock("go"):
        gen_gomod()
        rc, out = genconsts()
    if rc != 0:
        broken.append("translator genconsts failed: " + out.strip()[-400:])
    target = "theories/Properties/%s.v" % pid
    ok, log = coq_build([target])
    files = closure(target)
    runmods = cfg.get("run_modules", ["theories/Run/%sRun.v" % pid])
    scan = set(files)
    for rm_ in runmods:
        scan.update(closure(rm_))
    hits = forbidden_scan(sorted(scan))
    if hits:
        broken.append("forbidden declarations: " + "; ".join(hits[:5]))
    nobl, names = count_obligations(files)
    discharged = nobl
    assum = {}
    if not ok:
        errs = re.findall(r'File "\./([^"]+)", line (\d+)', log)
        where = ", ".join("%s:%s" % e for e in errs[:3]) or "see build log"
        m = re.search(r"Error:.*?(?=\n\S|\Z)", log, re.S)
        broken.append("proof obligation no longer checks (%s): %s" % (where, (m.group(0) if m else log[-300:]).strip()[:400]))
        open(os.path.join(outdir, "coq_build.log"), "w").write(log)
        # count what is still discharged: statements in files whose .vo exists and is newer than the source
        good = [f for f in files if os.path.exists(os.path.join(COQ, f[:-2] + ".vo"))
                and os.path.getmtime(os.path.join(COQ, f[:-2] + ".vo")) >= os.path.getmtime(os.path.join(COQ, f))]
        discharged, _ = count_obligations(good)
    else:
        assum, bad = print_assumptions(pid, outdir)
        for b in bad:
            broken.append("assumptions: " + b)
    # the Run module must be built for the correspondence
    ok_run, log_run = coq_build(runmods)
    if not ok_run:
        broken.append("model Run module does not build: " + log_run[-400:])

    # 2. harness on the implementation
    impl = {}
    rc, hout = run_harness(pid, tier, seed, outdir, replay=replay)
    open(os.path.join(outdir, "harness.log"), "w").write(hout)
    impl_path = os.path.join(outdir, "impl.json")
    if os.path.exists(impl_path):
        impl = json.load(open(impl_path))
    if rc != 0 or not impl:
        broken.append("harness failed to build or run against /repo (exit %d): %s" % (rc, hout.strip()[-600:]))
    elif not replay and not impl.get("evaluations", 0):
        # a generating run always produces cases: an empty one compared nothing (never report that as "held")
        broken.append("harness ran but produced no cases: %s" % hout.strip()[-400:])

    # 3. model on the same cases
    shards = sorted(glob.glob(os.path.join(outdir, "cases_*.v")))
    mism, modelviol, shard_fail = [], [], []
    if ok_run and shards:
        with concurrent.futures.ThreadPoolExecutor(max_workers=16) as ex:
            for path, rc2, res, out2 in ex.map(run_shard, shards):
                if rc2 != 0 or res["M"] is None or res["V"] is None:
                    shard_fail.append((path, out2[-500:]))
                    continue
                for i in res["M"]:
                    mism.append((path, i))
                for i in res["V"]:
                    modelviol.append((path, i))
        # a shard that was killed by its time limit (an overloaded machine) is evaluated once more, alone, with a
        # longer limit, before it counts as broken
        retry, shard_fail = shard_fail, []
        for path, tail in retry:
            path, rc2, res, out2 = run_shard(path, limit=4000)
            if rc2 != 0 or res["M"] is None or res["V"] is None:
                shard_fail.append((path, out2[-500:]))
                continue
            for i in res["M"]:
                mism.append((path, i))
            for i in res["V"]:
                modelviol.append((path, i))
    for path, tail in shard_fail:
        broken.append("case file failed to evaluate: %s: %s" % (os.path.basename(path), tail.strip()[-300:]))

    # 4. verdict
    known = load_known()
    known_keys = {(p, k): w for (p, k, w) in known["finding"]}
    viol_lines, known_lines = [], []
    oracle = impl.get("oracle_violations", [])
    new_oracle = []
    seen_known = set()
    for v in oracle:
        key = (pid, v.get("key", ""))
        if key in known_keys:
            if key not in seen_known:
                seen_known.add(key)
                known_lines.append("KNOWN-FINDING: property=%s key=%s %s" % (pid, key[1], known_keys[key]))
        else:
            new_oracle.append(v)
    nviol = 0
    tag = "%s-%s-%d" % (pid, tier, seed)
    if new_oracle:
        # one replay per distinct key
        bykey = {}
        for v in new_oracle:
            bykey.setdefault(v.get("key", ""), v)
        for k, v in bykey.items():
            rp = os.path.join(replay_dir, "%s-%s.json" % (tag, re.sub(r"[^A-Za-z0-9_.-]", "_", k)[:60] or "v"))
            write_json(rp, {"property": pid, "kind": "property-violated-on-implementation", "key": k,
                            "what": v.get("what"), "case": v.get("case"), "seed": seed, "tier": tier,
                            "how_to_replay": "./check %s --replay %s" % (pid, rp)})
            viol_lines.append("VIOLATION property=%s replay=%s" % (pid, rp))
            nviol += 1
    have_failing_input = bool(new_oracle)
    if (mism or modelviol or broken):
        # the tie or a proof broke but no failing input on the implementation: widen the search once
        extra = {}
        if (mism or broken) and not have_failing_input and not replay and os.environ.get("VERIF_NO_SEARCH") != "1":
            sdir = os.path.join(outdir, "search")
            os.makedirs(sdir, exist_ok=True)
            rc3, sout = run_harness(pid, tier, seed + 7919, sdir, mode="search")
            sp = os.path.join(sdir, "impl.json")
            if os.path.exists(sp):
                extra = json.load(open(sp))
        found = [v for v in extra.get("oracle_violations", []) if (pid, v.get("key", "")) not in known_keys]
        what = []
        for path, i in mism[:5]:
            what.append("correspondence: model and implementation differ on case %d of %s" % (i, os.path.basename(path)))
        for path, i in modelviol[:5]:
            what.append("model-side property oracle fails on case %d of %s" % (i, os.path.basename(path)))
        what.extend(broken)
        dbg = ""
        if mism:
            ids = [i for (p, i) in mism if p == mism[0][0]]
            dbg = debug_shard(mism[0][0], ids, outdir)
        case_dump = None
        if mism:
            try:
                # shard files are cases_<prefix><k>.v, their cases are in cases<prefix>.json
                m_sh = re.search(r"cases_([A-Za-z]*)(\d+)\.v", mism[0][0])
                allc = json.load(open(os.path.join(outdir, "cases%s.json" % m_sh.group(1))))
                sh_idx = int(m_sh.group(2))
                per = impl.get("shard_size", len(allc))
                case_dump = allc[sh_idx * per + mism[0][1]]
            except Exception as e:  # noqa
                case_dump = "unavailable: %s" % e
        rp = os.path.join(replay_dir, "%s-tie.json" % tag)
        rec = {"property": pid, "seed": seed, "tier": tier,
               "theorems": property_theorems(pid) if os.path.exists(os.path.join(COQ, target)) else [],
               "no_longer_checks": what, "first_mismatching_case": case_dump, "model_output": dbg}
        if found:
            v = found[0]
            rec.update({"kind": "property-violated-on-implementation", "key": v.get("key"), "what": v.get("what"),
                        "case": v.get("case")})
            write_json(rp, rec)
            viol_lines.append("VIOLATION property=%s replay=%s" % (pid, rp))
        elif have_failing_input:
            rec["kind"] = "tie-or-proof-broken (failing inputs are in the other replay files of this run)"
            write_json(rp, rec)
            viol_lines.append("VIOLATION property=%s replay=%s" % (pid, rp))
        else:
            rec["kind"] = "tie-or-proof-broken"
            write_json(rp, rec)
            viol_lines.append("VIOLATION property=%s replay=%s no-failing-input-found" % (pid, rp))
        nviol += 1
        notes.extend(what)

    # 4b. thorough tier: independent re-check of the compiled proofs (coqchk) with its own axiom report
    coqchk_report = None
    if tier == "thorough" and ok and not replay and os.environ.get("VERIF_NO_COQCHK") != "1":
        rc4, out4 = sh(["timeout", "2400", "coqchk", "-silent", "-o", "-Q", "theories", "AM", "AM.Properties.%s" % pid], cwd=COQ, timeout=2500)
        m4 = re.search(r"\* Axioms:(.*?)\n\s*\n\* Constants/Inductives relying on type-in-type:(.*?)\n\s*\n\* Constants/Inductives relying on unsafe \(co\)fixpoints:(.*?)\n\s*\n\* Inductives whose positivity is assumed:(.*?)\n", out4 + "\n", re.S)
        coqchk_report = {"exit": rc4}
        if m4:
            ax = [a.strip() for a in m4.group(1).split("\n") if a.strip() and a.strip() != "<none>"]
            # primitive-integer operations of Coq's own Uint63 library (used only by the case-file numerals) are not axioms of ours
            own = [a for a in ax if not a.startswith("Coq.Numbers.Cyclic.Int63.") and not a.startswith("Coq.Floats.")]
            coqchk_report.update({"axioms_total": len(ax), "axioms_not_primitive_ints": own,
                                  "type_in_type": m4.group(2).strip(), "unsafe_fixpoints": m4.group(3).strip(),
                                  "positivity_assumed": m4.group(4).strip()})
            if own or m4.group(2).strip() != "<none>" or m4.group(3).strip() != "<none>" or m4.group(4).strip() != "<none>":
                broken.append("coqchk reports axioms / unsafe features: %s" % json.dumps(coqchk_report)[:400])
        if rc4 != 0:
            broken.append("coqchk failed (exit %d): %s" % (rc4, out4[-300:]))
        if broken and not viol_lines:
            rp = os.path.join(replay_dir, "%s-coqchk.json" % tag)
            write_json(rp, {"property": pid, "kind": "tie-or-proof-broken", "no_longer_checks": broken})
            viol_lines.append("VIOLATION property=%s replay=%s no-failing-input-found" % (pid, rp))
            nviol += 1

    # 5. evidence
    cov = {
        "obligations": nobl, "discharged": discharged if ok else min(discharged, nobl - 1),
        "checker_cmd": "cd /verif/coq && make -j16 theories/Properties/%s.vo  (coqc 8.16.1, full .vo build) ; Print Assumptions for %s"
                       % (pid, ", ".join(property_theorems(pid)) if os.path.exists(os.path.join(COQ, target)) else "?"),
        "trusted_base": TRUSTED_BASE + cfg.get("trusted_base", []),
        "assumptions": {t: (a or "closed under the global context") for t, a in assum.items()},
        "theorems": property_theorems(pid) if os.path.exists(os.path.join(COQ, target)) else [],
        "model_files": files,
        "evaluations": impl.get("evaluations", 0),
        "distinct_nontrivial": impl.get("distinct_nontrivial", 0),
        "rule": impl.get("rule", ""),
        "samples": (impl.get("samples") or [])[:5],
        "distribution": impl.get("distribution", {}),
        "traces_validated_against_impl": impl.get("evaluations", 0) - len(mism),
        "correspondence_mismatches": len(mism),
        "model_oracle_violations": len(modelviol),
        "impl_oracle_violations": len(oracle),
        "known_findings_seen": sorted(k for (_, k) in seen_known),
        "shards": len(shards),
        "broken": broken,
        "coqchk": coqchk_report,
    }
    ev = {"property_id": pid, "tier": tier, "seed": seed, "level": "proof", "coverage": cov,
          "assumptions": cfg.get("assumptions", []) + ["see DESIGN.md section 7 (trusted base) and the per-property section"],
          "wall_s": round(time.time() - t0, 2), "violations": nviol}
    write_json(evidence_path, ev)
    for l in known_lines:
        print(l)
    for l in viol_lines:
        print(l)
    for n in notes[:8]:
        print("note: " + n[:600])
    print("%s %s: theorems=%d obligations=%d/%d cases=%d nontrivial=%d mismatches=%d oracle=%d wall=%.1fs" % (
        pid, tier, len(cov["theorems"]), cov["discharged"], nobl, cov["evaluations"], cov["distinct_nontrivial"],
        len(mism), len(oracle), time.time() - t0))
    return 1 if nviol else 0


def setup():
    with Lock("go"):
        gen_gomod()
        rc, out = genconsts()
        if rc != 0:
            print(out)
            return 1
    with Lock("coq"):
        coq_makefile()
        rc, out = sh(["timeout", "7000", "make", "-j16", "-k"], cwd=COQ, timeout=7200)
    print(out[-3000:])
    if rc != 0:
        print("coq build failed")
        return 1
    rc, out = sh(["go", "test", "-tags", ALL_TAGS, "-count=1", "-run", "^$", "./..."], cwd=HARNESS, env=goenv(), timeout=3000)
    print(out[-3000:])
    return 0 if rc == 0 else 1


def coqchk_all():
    """thorough-tier helper: independent re-check of every compiled file, printing the axioms."""
    mods = []
    for rel in vfiles():
        mods.append("AM." + rel[len("theories/"):-2].replace("/", "."))
    rc, out = sh(["timeout", "6000", "coqchk", "-silent", "-o", "-Q", "theories", "AM"] + mods, cwd=COQ, timeout=6100)
    return rc, out


def main(argv):
    if len(argv) < 2:
        print(__doc__)
        return 2
    tier = os.environ.get("VERIF_TIER", "quick") or "quick"
    replay = None
    args = argv[1:]
    if "--tier" in args:
        i = args.index("--tier")
        tier = args[i + 1]
        del args[i:i + 2]
    if "--replay" in args:
        i = args.index("--replay")
        replay = args[i + 1]
        del args[i:i + 2]
    if tier not in ("quick", "thorough"):
        tier = "quick"
    if args[0] == "--setup":
        return setup()
    if args[0] == "--coqchk":
        rc, out = coqchk_all()
        print(out[-6000:])
        return rc
    if args[0] == "--all":
        rcs = 0
        for p in sorted(glob.glob(os.path.join(COQ, "theories/Properties/C*.v"))):
            rcs |= check(os.path.basename(p)[:-2], tier)
        return rcs
    if not os.path.exists(os.path.join(COQ, "theories/Properties", args[0] + ".v")):
        print(__doc__)
        print("unknown property id: %s" % args[0])
        return 2
    return check(args[0], tier, replay)


if __name__ == "__main__":
    sys.exit(main(sys.argv))
